// arrival::Curve::{number_arrivals, lookup_arrivals, ...}: bodies verbatim from /repo/src/arrival/curve.rs
// (rule R2: for-enumerate -> index loop; rule R6: panic!() -> vf_unreachable()).
use vstd::arithmetic::div_mod::*;
use vstd::arithmetic::mul::*;
verus! {

// ------------------------------------------------------------------ spec library
pub open spec fn dm(d: Seq<Duration>, i: int) -> int { d[i].v() }
/// well-formed delta-min prefix: non-empty, non-decreasing, last entry positive
pub open spec fn dmin_wf(d: Seq<Duration>) -> bool {
    &&& d.len() >= 1
    &&& forall |i: int, k: int| 0 <= i <= k < d.len() ==> dm(d, i) <= dm(d, k)
    &&& dm(d, d.len() - 1) >= 1
}
/// number of recorded distances strictly smaller than x, among the first n entries
pub open spec fn count_lt(d: Seq<Duration>, n: int, x: int) -> int
    decreases n
{
    if n <= 0 { 0 } else { count_lt(d, n - 1, x) + if dm(d, n - 1) < x { 1int } else { 0int } }
}
/// jobs that fit into a window of length x < D: one, plus one for every delta-min entry below x
pub open spec fn eta(d: Seq<Duration>, x: int) -> int { if x <= 0 { 0 } else { 1 + count_lt(d, d.len() as int, x) } }
/// the arrival curve: whole-prefix repetition beyond the largest known distance D
pub open spec fn na_curve(d: Seq<Duration>, delta: int) -> int {
    let big = dm(d, d.len() - 1);
    if delta <= 0 { 0 } else { (delta / big) * d.len() + eta(d, delta % big) }
}

pub proof fn lemma_count_lt_sorted(d: Seq<Duration>, n: int, x: int, i: int)
    requires dmin_wf(d), 0 <= i <= n <= d.len(),
             forall |k: int| 0 <= k < i ==> dm(d, k) < x,
             i == n || dm(d, i) >= x,
    ensures count_lt(d, n, x) == i
    decreases n
{
    if n > 0 {
        if i == n { lemma_count_lt_sorted(d, n - 1, x, n - 1); }
        else { assert(dm(d, i) <= dm(d, n - 1)); lemma_count_lt_sorted(d, n - 1, x, i); }
    }
}
pub proof fn lemma_count_lt_bounds(d: Seq<Duration>, n: int, x: int, y: int)
    requires 0 <= n <= d.len(), x <= y
    ensures 0 <= count_lt(d, n, x) <= count_lt(d, n, y) <= n
    decreases n
{
    if n > 0 { lemma_count_lt_bounds(d, n - 1, x, y); }
}



pub proof fn lemma_eta_le_len(d: Seq<Duration>, x: int)
    requires dmin_wf(d), x <= dm(d, d.len() - 1)
    ensures 0 <= eta(d, x) <= d.len()
{
    let len = d.len() as int;
    lemma_count_lt_bounds(d, len - 1, x, x);
}
/// C10: number_arrivals(0) == 0 and number_arrivals is non-decreasing, for every well-formed delta-min prefix
pub proof fn lemma_na_curve_mono(d: Seq<Duration>, a: int, b: int)
    requires dmin_wf(d), 0 <= a <= b
    ensures na_curve(d, 0) == 0, 0 <= na_curve(d, a) <= na_curve(d, b)
{
    let big = dm(d, d.len() - 1); let len = d.len() as int;
    if a > 0 {
        let (qa, ra) = (a / big, a % big); let (qb, rb) = (b / big, b % big);
        lemma_fundamental_div_mod(a, big); lemma_mod_bound(a, big); lemma_div_pos_is_pos(a, big);
        lemma_fundamental_div_mod(b, big); lemma_mod_bound(b, big); lemma_div_pos_is_pos(b, big);
        lemma_div_is_ordered(a, b, big);
        lemma_eta_le_len(d, ra); lemma_eta_le_len(d, rb);
        lemma_mul_nonnegative(qa, len);
        if qa == qb {
            assert(ra <= rb);
            lemma_count_lt_bounds(d, len, ra, rb);
        } else {
            assert((qa + 1) * len <= qb * len) by { lemma_mul_inequality(qa + 1, qb, len); }
            assert((qa + 1) * len == qa * len + len) by { lemma_mul_is_distributive_add_other_way(len, qa, 1); }
        }
    } else if b > 0 {
        lemma_fundamental_div_mod(b, big); lemma_mod_bound(b, big); lemma_div_pos_is_pos(b, big);
        lemma_eta_le_len(d, b % big);
        lemma_mul_nonnegative(b / big, len);
    }
}

// ------------------------------------------------------------------ C10 / C12 / C13: event sequences that respect the delta-min prefix
pub open spec fn respects_dmin(rel: Seq<int>, d: Seq<Duration>) -> bool {
    forall |i: int, n: int| #![trigger rel[i], dm(d, n - 2)] 0 <= i && 2 <= n <= d.len() + 1 && i + n - 1 < rel.len() ==> rel[i + n - 1] - rel[i] >= dm(d, n - 2)
}
pub proof fn lemma_count_lt_ge(d: Seq<Duration>, n: int, x: int, k: int)
    requires dmin_wf(d), 0 <= k <= n <= d.len(), forall |j: int| 0 <= j < k ==> dm(d, j) < x
    ensures count_lt(d, n, x) >= k
    decreases n
{
    if n > k { lemma_count_lt_ge(d, n - 1, x, k); } else if n > 0 { lemma_count_lt_ge(d, n - 1, x, k - 1); }
}
pub proof fn lemma_na_shift(d: Seq<Duration>, delta: int)
    requires dmin_wf(d), delta >= dm(d, d.len() - 1)
    ensures na_curve(d, delta) == na_curve(d, delta - dm(d, d.len() - 1)) + d.len(), na_curve(d, delta - dm(d, d.len() - 1)) >= 0
{
    let big = dm(d, d.len() - 1); let len = d.len() as int;
    let q = delta / big; let r = delta % big;
    lemma_fundamental_div_mod(delta, big); lemma_mod_bound(delta, big); lemma_div_pos_is_pos(delta, big);
    assert(q >= 1) by { if q <= 0 { assert(big * q <= 0) by { lemma_mul_nonnegative(big, -q); lemma_mul_unary_negation(big, -q); } } }
    assert((q - 1) * big == big * q - big) by { lemma_mul_is_distributive_sub(big, q, 1); lemma_mul_is_commutative(big, q - 1); }
    lemma_fundamental_div_mod_converse(delta - big, big, q - 1, r);
    assert((q - 1) * len == q * len - len) by { lemma_mul_is_distributive_sub_other_way(len, q, 1); }
    lemma_count_lt_bounds(d, len, r, r);
    lemma_mul_nonnegative(q - 1, len);
    assert((delta - big) / big == q - 1 && (delta - big) % big == r);
    if delta - big == 0 {
        assert(q == 1 && r == 0) by { if q >= 2 { lemma_mul_inequality(2, q, big); lemma_mul_is_commutative(big, q); } }
        assert(q * len == len) by { lemma_mul_basics(len); }
    } else {
        assert(na_curve(d, delta - big) == (q - 1) * len + eta(d, r));
    }
    assert(na_curve(d, delta) == q * len + eta(d, r));
}
/// No window of length delta contains more releases than the curve claims -- for EVERY delta,
/// not only within the recorded prefix.
pub proof fn lemma_curve_never_undercounts(rel: Seq<int>, d: Seq<Duration>, i: int, m: int, w: int, delta: int)
    requires dmin_wf(d), sorted(rel), respects_dmin(rel, d), delta >= 0, run_in_window(rel, i, m, w, delta)
    ensures m <= na_curve(d, delta)
    decreases delta
{
    let big = dm(d, d.len() - 1); let len = d.len() as int;
    if m >= 1 {
        assert(w <= rel[i] < w + delta);
        assert(delta >= 1);
        if delta < big {
            lemma_small_mod(delta as nat, big as nat); lemma_basic_div(delta, big);
            // q = 0, na = eta(delta)
            if m >= 2 {
                assert(w <= rel[i + m - 1] < w + delta);
                if m >= len + 2 {
                    assert(rel[i + (len + 1) - 1] - rel[i] >= dm(d, (len + 1) - 2));
                    assert(rel[i + len] <= rel[i + m - 1]);
                }
                assert forall |j: int| 0 <= j < m - 1 implies dm(d, j) < delta by {
                    assert(rel[i + (j + 2) - 1] - rel[i] >= dm(d, (j + 2) - 2));
                    assert(rel[i + j + 1] <= rel[i + m - 1]);
                }
                lemma_count_lt_ge(d, len, delta, m - 1);
            } else {
                lemma_count_lt_bounds(d, len, delta, delta);
            }
            assert((delta / big) * len == 0) by { lemma_mul_basics(len); }
        } else {
            lemma_na_shift(d, delta);
            if m > len {
                // the (len+1)-th event of the run is at least D after the first one
                assert(rel[i + (len + 1) - 1] - rel[i] >= dm(d, (len + 1) - 2));
                assert forall |x: int| i + len <= x < i + len + (m - len) implies w + big <= #[trigger] rel[x] < (w + big) + (delta - big) by {
                    assert(rel[i + len] <= rel[x]);
                    assert(w <= rel[x] < w + delta);
                }
                lemma_curve_never_undercounts(rel, d, i + len, m - len, w + big, delta - big);
            }
        }
    } else {
        if delta > 0 {
            lemma_fundamental_div_mod(delta, big); lemma_mod_bound(delta, big); lemma_div_pos_is_pos(delta, big);
            lemma_count_lt_bounds(d, len, delta % big, delta % big);
            lemma_mul_nonnegative(delta / big, len);
        }
    }
}

// ------------------------------------------------------------------ extracted code
//@item src/arrival/curve.rs :: struct Curve
pub struct Curve {
    /*+*/pub/*-*/ min_distance: Vec<Duration>,
}
//@end

impl Curve {
    pub open spec fn cwf(&self) -> bool { dmin_wf(self.min_distance@) && self.min_distance.len() < 0x1_0000_0000 }

//@item src/arrival/curve.rs :: impl Curve / fn min_job_separation
    fn min_job_separation(&self) -> /*+*/(r:/*-*/ Duration/*+*/)
        requires self.cwf()
        ensures r == self.min_distance[0]/*-*/
    {
        // minimum separation of two jobs given by first element
        self.min_distance[0]
    }
//@end

//@item src/arrival/curve.rs :: impl Curve / fn largest_known_distance
    fn largest_known_distance(&self) -> /*+*/(r:/*-*/ Duration/*+*/)
        requires self.min_distance@.len() >= 1
        ensures r == self.min_distance[self.min_distance.len() - 1]/*-*/
    {
        *self.min_distance.last().unwrap()
    }
//@end

//@item src/arrival/curve.rs :: impl Curve / fn jobs_in_largest_known_distance
    fn jobs_in_largest_known_distance(&self) -> /*+*/(r:/*-*/ usize/*+*/)
        ensures r == self.min_distance.len()/*-*/
    {
        self.min_distance.len()
    }
//@end

    // note: does not extrapolate
//@item src/arrival/curve.rs :: impl Curve / fn lookup_arrivals
    fn lookup_arrivals(&self, delta: Duration) -> /*+*/(r: /*-*/usize/*+*/)
        requires self.cwf(), delta.v() <= dm(self.min_distance@, self.min_distance.len() - 1)
        ensures r == 1 + count_lt(self.min_distance@, self.min_distance.len() as int, delta.v())/*-*/
    {
        // TODO: for really large vectors, this should be a binary search...
        /*@R2: for (i, distance_of_njobs) in self.min_distance.iter().enumerate() @*/let mut i: usize = 0;
        while i < self.min_distance.len()
            invariant self.cwf(), i <= self.min_distance.len(), delta.v() <= dm(self.min_distance@, self.min_distance.len() - 1),
                      forall |k: int| 0 <= k < i ==> dm(self.min_distance@, k) < delta.v(),
            decreases self.min_distance.len() - i
        /*@.*/{/*+*/
            let distance_of_njobs = &self.min_distance[i];/*-*/
            let njobs = i + 2; // we do not store n=0 and n=1
            if delta <= *distance_of_njobs {
//@+
                proof { lemma_count_lt_sorted(self.min_distance@, self.min_distance.len() as int, delta.v(), i as int); }
//@-
                return njobs - 1;
            }/*+*/
            i += 1;/*-*/
        }
        // should never get here
        /*@R6: panic!() @*/vf_unreachable(); 0/*@.*/
    }
//@end

}

impl ArrivalBound for Curve {
    open spec fn wf(&self) -> bool { self.cwf() }
    open spec fn na(&self, delta: int) -> int { na_curve(self.min_distance@, delta) }
    open spec fn na_ok(&self, delta: int) -> bool { na_curve(self.min_distance@, delta) <= usize::MAX }
    proof fn na_props(&self) {
        lemma_na_curve_mono(self.min_distance@, 0, 0);
        assert forall |a: int, b: int| 0 <= a <= b implies 0 <= #[trigger] self.na(a) <= #[trigger] self.na(b) by { lemma_na_curve_mono(self.min_distance@, a, b); }
    }
//@item src/arrival/curve.rs :: impl ArrivalBound for Curve / fn number_arrivals
    fn number_arrivals(&self, delta: Duration) -> usize
    {
        if delta.is_non_zero() {
//@+
            proof {
                let big = dm(self.min_distance@, self.min_distance.len() - 1);
                lemma_fundamental_div_mod(delta.v(), big); lemma_mod_bound(delta.v(), big); lemma_div_pos_is_pos(delta.v(), big);
                lemma_count_lt_bounds(self.min_distance@, self.min_distance.len() as int, delta.v() % big, delta.v() % big);
                lemma_mul_nonnegative(delta.v() / big, self.min_distance.len() as int);
            }
//@-
            // first, resolve long delta by super-additivity of arrival curves
            let prefix = delta / self.largest_known_distance();
            let prefix_jobs = prefix as usize * self.jobs_in_largest_known_distance();
            let tail = delta % self.largest_known_distance();
            if tail > self.min_job_separation() {
                prefix_jobs + self.lookup_arrivals(tail) as usize
            } else {
//@+
                proof {
                    // tail <= d[0]: no recorded distance is strictly below tail
                    lemma_count_lt_sorted(self.min_distance@, self.min_distance.len() as int, tail.v(), 0);
                }
//@-
                prefix_jobs + tail.is_non_zero() as usize
            }
        } else {
            0
        }
    }
//@end
}


} // verus!

// ---- Curve::from_iter (C10): the running maximum makes any distance vector a monotone delta-min prefix
verus! {
pub open spec fn run_max(s: Seq<Duration>, k: int) -> int decreases k { if k <= 0 { s[0].v() } else { let r = run_max(s, k - 1); if s[k].v() > r { s[k].v() } else { r } } }
pub proof fn lemma_run_max_mono(s: Seq<Duration>, i: int, j: int)
    requires 0 <= i <= j < s.len()
    ensures run_max(s, i) <= run_max(s, j), s[j].v() <= run_max(s, j)
    decreases j
{ if i < j { lemma_run_max_mono(s, i, j - 1); } }
/// R15: `iter.into_iter().collect()` of a finite sequence
pub fn vf_to_vec(xs: &[Duration]) -> (v: Vec<Duration>) ensures v@ == xs@
{
    let mut v: Vec<Duration> = Vec::new();
    let mut i: usize = 0;
    while i < xs.len() invariant i <= xs@.len(), v@ == xs@.subrange(0, i as int) decreases xs@.len() - i
    { v.push(xs[i]); i += 1; }
    proof { assert(xs@.subrange(0, xs@.len() as int) =~= xs@); }
    v
}
impl Curve {
//@item src/arrival/curve.rs :: impl FromIterator<Duration> for Curve / fn from_iter
    fn from_iter/*@R15: <I: IntoIterator<Item = Duration>>(iter: I) @*/(iter: &[Duration])/*@.*/ -> /*+*/(c: /*-*/Curve/*+*/)
        requires iter@.len() >= 1
        ensures c.min_distance@.len() == iter@.len(),
                forall |k: int| 0 <= k < iter@.len() ==> dm(c.min_distance@, k) == #[trigger] run_max(iter@, k),
                forall |i: int, j: int| 0 <= i <= j < iter@.len() ==> dm(c.min_distance@, i) <= dm(c.min_distance@, j)/*-*/
    {
        let mut distances: Vec<Duration> = /*@R15: iter.into_iter().collect() @*/vf_to_vec(iter)/*@.*/;
        // ensure the min-distance function is monotonic
        /*@R16: for i in 1..distances.len() @*/let vf_end = distances.len();
        for i in 1..vf_end/*@.*//*+*/
            invariant distances@.len() == iter@.len(), vf_end == distances@.len(), distances@[0] == iter@[0],
                      forall |k: int| 0 <= k < i && k < iter@.len() ==> dm(distances@, k) == #[trigger] run_max(iter@, k),
                      forall |k: int| i <= k < iter@.len() ==> #[trigger] distances@[k] == iter@[k],
                      iter@.len() >= 1/*-*/
        {
//@+
            proof { assert(distances@[i as int] == iter@[i as int]); assert(dm(distances@, i - 1) == run_max(iter@, i - 1)); }
            let ghost old_d = distances@;
//@-
            distances[i] = distances[i].max(distances[i - 1]);
//@+
            proof {
                assert(dm(distances@, i as int) == run_max(iter@, i as int));
                assert forall |k: int| 0 <= k < i + 1 && k < iter@.len() implies dm(distances@, k) == #[trigger] run_max(iter@, k) by { if k < i { assert(distances@[k] == old_d[k]); assert(dm(old_d, k) == run_max(iter@, k)); } }
            }
//@-
        }
        /*@R6: assert! @*/vf_assert/*@.*/(!distances.is_empty());
//@+
        proof {
            assert forall |k: int| 0 <= k < iter@.len() implies dm(distances@, k) == #[trigger] run_max(iter@, k) by { if k == 0 { assert(distances@[0] == iter@[0]); } }
            assert forall |i: int, j: int| 0 <= i <= j < iter@.len() implies dm(distances@, i) <= dm(distances@, j) by { lemma_run_max_mono(iter@, i, j); assert(dm(distances@, i) == run_max(iter@, i)); assert(dm(distances@, j) == run_max(iter@, j)); }
        }
//@-
        Curve {
            min_distance: distances,
        }
    }
//@end
}
} // verus!
