//@include vx/prelude.rs
//@include units/time.rs
fn main() {}
