// unit part: src/fixed_priority/limited_preemptive.rs (C06)
verus! {

pub open spec fn rem_of<AB: ArrivalBound + ?Sized>(tua: &TaskUnderAnalysis<AB>) -> int { tua.last_np_segment.v() - 1 }

/// the observation of the step stream covers every offset the search can reach
pub open spec fn pre_steps<AB: ArrivalSteps + ?Sized>(tua: &TaskUnderAnalysis<AB>, limit: int, n: int) -> bool { tua.arrivals.steps_ok(n) && tua.arrivals.steps_hz(n) >= limit }
pub open spec fn pre<AB: ArrivalBound + ?Sized, B: RequestBound>(tua: &TaskUnderAnalysis<AB>, hp: Seq<B>, limit: int) -> bool {
    &&& 1 <= limit                            // limit 0: known finding KF7
    &&& limit + tua.wcet.wcet.v() <= u64::MAX
    &&& tua.wcet.wcet.v() >= 1
    &&& 1 <= tua.last_np_segment.v() <= tua.wcet.wcet.v()     // segment lengths within the WCET
    &&& tua.arrivals.wf() && all_rb_wf(hp)
    &&& tua.arrivals.na(1) >= 1               // a job can arrive (else pruned and exhaustive search spaces differ trivially)
    &&& forall |d: int| 0 <= d <= limit + 1 ==> #[trigger] tua.arrivals.na_ok(d)
    &&& forall |d: int| 0 <= d <= limit ==> #[trigger] all_rb_ok(hp, d)
    &&& tua.arrivals.na(limit + 1) <= usize::MAX
    &&& tua.blocking_bound.v() + sum_rbf(hp, limit) + tua.wcet.wcet.v() * tua.arrivals.na(limit + 1) <= u64::MAX
}
/// C06 for limited-preemptive FP: blocking b, rtct = C - (last - eps), remaining cost last - 1
pub open spec fn spec_result<AB: ArrivalBound + ?Sized, B: RequestBound>(tua: &TaskUnderAnalysis<AB>, hp: Seq<B>, limit: int) -> Option<int> {
    lp_spec(tua.wcet.wcet.v(), tua.last_np_segment.v(), na_fn(tua.arrivals), hp_fn(hp), tua.blocking_bound.v(), limit)
}
//@item src/fixed_priority/limited_preemptive.rs :: struct TaskUnderAnalysis
pub struct TaskUnderAnalysis<'a, AB: ArrivalBound + ?Sized> {
    /// The task's WCET.
    pub wcet: wcet::Scalar,

    /// The task's arrival bound.
    pub arrivals: &'a AB,

    /// The maximum length of the task's last segment.
    pub last_np_segment: Service,

    /// The `blocking_bound` must be a bound on the maximum priority
    /// inversion caused by tasks of lower priority, which corresponds
    /// to the maximum segment length of any lower-priority task.
    pub blocking_bound: Service,
}
//@end

//@item src/fixed_priority/limited_preemptive.rs :: fn dedicated_uniproc_rta
pub fn dedicated_uniproc_rta<InterferingRBF, AB>(
    tua: &TaskUnderAnalysis<AB>,
    interfering_tasks: &[InterferingRBF],
    limit: Duration,
/*+*/vf_n: usize,/*-*/
) -> /*+*/(res: /*-*/fixed_point::SearchResult/*+*/)/*-*/
where
    InterferingRBF: RequestBound,
    AB: /*@R22: ArrivalBound @*/ArrivalSteps/*@.*/ + ?Sized,
//@+
    requires pre(tua, interfering_tasks@, limit.v()), pre_steps(tua, limit.v(), vf_n as int)
    ensures res_view(res) == spec_result(tua, interfering_tasks@, limit.v())
//@-
{
    // This analysis is specific to dedicated uniprocessors.
    let proc = supply::Dedicated::new();

    // For convenience, define the RBF for the task under analysis.
    let tua_rbf = demand::RBF::new(tua.arrivals, tua.wcet);
//@+
    let ghost c = tua.wcet.wcet.v();
    let ghost bb = tua.blocking_bound.v();
    let ghost rem = rem_of(tua);
    let ghost tf = tua_fn(c, tua.arrivals);
    let ghost hf = hp_fn(interfering_tasks@);
    proof {
        lemma_tua_fn(c, tua.arrivals); lemma_hp_fn_like(interfering_tasks@);
        lemma_w_mono(tf, hf, bb, 0, 0);
        lemma_ded_is_dedicated();
        assert(rbf_fn(&tua_rbf) =~= tf) by { assert forall |x: int| #[trigger] rbf_fn(&tua_rbf)(x) == tf(x) by {} }
    }
//@-

    // First, bound the maximum possible busy-window length.
    let L = fixed_point::search(&proc, limit, |L/*+*/: Duration/*-*/| /*+*/-> (r: Service)
        requires 1 <= L.v() <= limit.v(), pre(tua, interfering_tasks@, limit.v()), tua_rbf.wcet == tua.wcet, tua_rbf.arrival_bound == tua.arrivals
        ensures r.v() == w_bw(tua_fn(tua.wcet.wcet.v(), tua.arrivals), hp_fn(interfering_tasks@), tua.blocking_bound.v())(L.v())
    /*-*/{ /*@probe*/
//@+
        proof {
            lemma_tua_fn(tua.wcet.wcet.v(), tua.arrivals);
            lemma_sum_rbf_mono(interfering_tasks@, L.v(), limit.v());
            let tf0 = tua_fn(tua.wcet.wcet.v(), tua.arrivals);
            assert(tf0(limit.v() + 1) == tua.wcet.wcet.v() * tua.arrivals.na(limit.v() + 1));
            assert(0 <= tf0(0) <= tf0(limit.v() + 1));
            assert(sum_rbf(interfering_tasks@, L.v()) <= sum_rbf(interfering_tasks@, limit.v()) <= u64::MAX);
            assert(all_rb_ok(interfering_tasks@, L.v()));
            assert forall |i: int| 0 <= i < interfering_tasks@.len() implies (|t: InterferingRBF| t.rbf(L.v()))(#[trigger] interfering_tasks@[i]) >= 0 by { interfering_tasks@[i].rbf_props(); }
        }
//@-
        let interference_bound: Service = /*@R1: interfering_tasks
            .iter()
            .map( @*/vf_sum_service(interfering_tasks, /*@.*/|rbf/*+*/: &InterferingRBF/*-*/| /*+*/-> (r: Service) requires rbf.wf(), rbf.rb_ok(L.v()) ensures r.v() == rbf.rbf(L.v()) { /*-*/rbf.service_needed(L)/*+*/ }/*-*//*@R1: )
            .sum() @*/, Ghost(|t: InterferingRBF| t.rbf(L.v())))/*@.*/;

//@+
        proof {
            let tf = tua_fn(tua.wcet.wcet.v(), tua.arrivals);
            assert(tf(L.v()) <= tf(limit.v() + 1));
            assert(tua.arrivals.na_ok(L.v()));
            assert(tua_rbf.rbf(L.v()) == tf(L.v()));
        }
//@-
        tua.blocking_bound + interference_bound + tua_rbf.service_needed(L)
    })?;
//@+
    proof { lemma_scan(ded(), 0, w_bw(tf, hf, bb), 0, limit.v()); }
//@-

    // Second, define the RTA for a given offset A. To this end, we
    // define some trivial components of the fixed-point equation to
    // implement the RTA given in the aRTA paper as literally as
    // possible.

    // Second, the run-to-completion threshold of the task under
    // analysis. In the limited preemptive case, no job can be preempted
    // after it reaches its last non-preemptive segment.
    // See also: https://prosa.mpi-sws.org/branches/master/pretty/prosa.model.task.preemption.limited_preemptive.html#limited_preemptive
    let rtct = tua.wcet.wcet - (tua.last_np_segment - Service::epsilon());
    // The remaining cost after the run-to-completion threshold has been reached.
    let rem_cost = tua.wcet.wcet - rtct;

    // Now define the offset-specific RTA.
    let rta = |A: Offset| /*+*/-> (r: fixed_point::SearchResult)
        requires A.v() < L.v() <= limit.v(), is_step(tua_fn(tua.wcet.wcet.v(), tua.arrivals), A.v()), pre(tua, interfering_tasks@, limit.v()),
                 tua_rbf.wcet == tua.wcet, tua_rbf.arrival_bound == tua.arrivals, rem_cost.v() == rem_of(tua),
                 dscan(w_bw(tua_fn(tua.wcet.wcet.v(), tua.arrivals), hp_fn(interfering_tasks@), tua.blocking_bound.v()), limit.v()) == Some(L.v())
        ensures res_view(r) == f_off(tua_fn(tua.wcet.wcet.v(), tua.arrivals), hp_fn(interfering_tasks@), tua.blocking_bound.v(), rem_of(tua), limit.v(), A.v())
    /*-*/{ /*@probe*/
        // Define the RHS of the equation in theorem 31 of the aRTA paper,
        // where AF = A + F.
        let rhs = |AF: Duration| /*+*/-> (r: Service)
            requires 1 <= AF.v() <= limit.v(), A.v() < limit.v(), pre(tua, interfering_tasks@, limit.v()),
                     tua_rbf.wcet == tua.wcet, tua_rbf.arrival_bound == tua.arrivals, rem_cost.v() == rem_of(tua)
            ensures r.v() == w_off(tua_fn(tua.wcet.wcet.v(), tua.arrivals), hp_fn(interfering_tasks@), tua.blocking_bound.v(), rem_of(tua), A.v())(AF.v())
        /*-*/{ /*@probe*/
//@+
            proof {
                let tf = tua_fn(tua.wcet.wcet.v(), tua.arrivals);
                lemma_tua_fn(tua.wcet.wcet.v(), tua.arrivals);
                assert(tf(A.v() + 1) <= tf(limit.v() + 1));
                assert(tf(A.v() + 1) >= tua.wcet.wcet.v());
                assert(tua.arrivals.na_ok(A.v() + 1));
                assert(tua_rbf.rbf(A.v() + 1) == tf(A.v() + 1));
                lemma_sum_rbf_mono(interfering_tasks@, limit.v(), limit.v());
                assert(tf(limit.v() + 1) == tua.wcet.wcet.v() * tua.arrivals.na(limit.v() + 1));
                assert(0 <= tf(0) <= tf(limit.v() + 1));
            }
//@-
            // demand of the task under analysis
            let self_interference = tua_rbf.service_needed(A.closed_since_time_zero());
            let tua_demand = self_interference - rem_cost;

//@+
            proof {
                lemma_sum_rbf_mono(interfering_tasks@, AF.v(), limit.v());
                assert(sum_rbf(interfering_tasks@, AF.v()) <= sum_rbf(interfering_tasks@, limit.v()) <= u64::MAX);
                assert(all_rb_ok(interfering_tasks@, AF.v()));
                assert forall |i: int| 0 <= i < interfering_tasks@.len() implies (|t: InterferingRBF| t.rbf(AF.v()))(#[trigger] interfering_tasks@[i]) >= 0 by { interfering_tasks@[i].rbf_props(); }
            }
//@-
            // demand of all interfering tasks
            let interfering_demand = /*@R1: interfering_tasks
                .iter()
                .map( @*/vf_sum_service(interfering_tasks, /*@.*/|rbf/*+*/: &InterferingRBF/*-*/| /*+*/-> (r: Service) requires rbf.wf(), rbf.rb_ok(AF.v()) ensures r.v() == rbf.rbf(AF.v()) { /*-*/rbf.service_needed(AF)/*+*/ }/*-*//*@R1: )
                .sum() @*/, Ghost(|t: InterferingRBF| t.rbf(AF.v())))/*@.*/;

            // considering `blocking_bound` to account for priority inversion
            tua.blocking_bound + tua_demand + interfering_demand
        };

//@+
        proof {
            let tf = tua_fn(tua.wcet.wcet.v(), tua.arrivals); let hf = hp_fn(interfering_tasks@);
            let bb = tua.blocking_bound.v(); let rem = rem_of(tua);
            lemma_tua_fn(tua.wcet.wcet.v(), tua.arrivals); lemma_hp_fn_like(interfering_tasks@);
            assert(tf(A.v() + 1) >= tua.wcet.wcet.v());
            lemma_w_mono(tf, hf, bb, rem, A.v());
            lemma_ded_is_dedicated();
            assert(proc == (Dedicated {}));
            assert(clo_is(&rhs, w_off(tf, hf, bb, rem, A.v())));
            lemma_scan(ded(), 0, w_off(tf, hf, bb, rem, A.v()), 0, limit.v());
            if dscan(w_off(tf, hf, bb, rem, A.v()), limit.v()).is_some() {
                lemma_af_ge_a(tf, hf, bb, rem, limit.v(), L.v(), A.v());
            }
        }
//@-
        // Find the solution A+F that is the least fixed point
        let AF = fixed_point::search(&proc, limit, rhs)?;
        // Extract the corresponding bound.
        let F = AF - A.since_time_zero();
        Ok(F + Duration::from(rem_cost))
    };

    // Third, define the search space. The search space is given by
    // A=0 and each step below L of the task under analysis's RBF.
    // The case of A=0 is not handled explicitly since `step_offsets()`
    // necessarily yields it.
    let max_offset = Offset::from_time_zero(L);
//@+
    let ghost hz = tua.arrivals.steps_hz(vf_n as int);
//@-
//@+
    proof { assert(L.v() <= limit.v()); lemma_scalar_strict(&tua_rbf.wcet); }
//@-
    let search_space = demand::step_offsets(&tua_rbf/*+*/, vf_n/*-*/).take_while(|A/*+*/: &Offset/*-*/| /*+*/-> (r: bool) ensures r == (A.v() < max_offset.v()) { /*@probe*/ /*-*/*A < max_offset/*+*/ }, Ghost(|A: Offset| A.v() < max_offset.v())/*-*/);
//@+
    let ghost ss = search_space.0@;
    let ghost mx = max_offset.v();
    // the stream that take_while consumed (an unnamed temporary of the expression above)
    let ghost offs: Seq<Offset> = choose |o: Seq<Offset>| #[trigger] offsets_exact(o, tf, hz) && tw_of(ss, o, mx);
    proof {
        assert(exists |o: Seq<Offset>| #[trigger] offsets_exact(o, tf, hz) && tw_of(ss, o, mx));
        assert forall |i: int| 0 <= i < search_space.0@.len() implies #[trigger] rta.requires((search_space.0@[i],)) by {
            assert(search_space.0@[i] == offs[i]);
            assert(off_has(offs, offs[i].v()));
        }
    }
//@-

    // Apply the offset-specific RTA to each offset in the search space and
    // return the maximum response-time bound.
    /*@R21: fixed_point::max_response_time(search_space.map(rta)) @*/let vf_rs = search_space.map_rel(rta);
    let vf_res = fixed_point::max_response_time(vf_rs.as_slice());
    proof {
        let g = |x: int| f_off(tf, hf, bb, rem, limit.v(), x);
        lemma_tail_fold(offs, tf, hz, mx, ss, vf_rs.0@, g, vf_res);
        lemma_prune(tf, hf, bb, rem, limit.v(), L.v());
    }
    vf_res/*@.*/
}
//@end

} // verus!
