//@include vx/prelude.rs
//@include units/time.rs
//@include units/speclib_arith.rs
//@include units/vf_helpers.rs
//@include units/arrival_basic.rs
//@include units/arrival_curve.rs
//@include units/arrival_trace.rs
//@include units/arrival_extrapolate.rs
//@include units/arrival_cache.rs
//@include units/arrival_prefix.rs
//@include units/lemmas_arrival.rs
//@include units/lemmas_curve_tightens.rs
fn main() {}
