// C11 for request bounds and the analyses' search space: RequestBound::steps_iter (trait-level contract), RBF::steps_iter,
// demand::step_offsets -- bodies verbatim from /repo/src/demand/*.rs (rule R21, see units/arrival_steps.rs) -- and the lemma
// that turns "step offsets below max_offset, mapped through rta, folded by max_response_time" into the evaluator `fold_steps`.
// The contract lives in a SUB-trait (RequestSteps / ArrivalSteps): an analysis whose trait bound is narrowed to it (rule R22) is
// proved for every request bound whose steps_iter satisfies the C11 contract -- a hypothesis, not an assumption.
verus! {

pub open spec fn off_str_inc(s: Seq<Offset>) -> bool { forall |i: int, k: int| #![trigger s[i], s[k]] 0 <= i < k < s.len() ==> s[i].val < s[k].val }
/// s is strictly increasing, every offset in it is one at which f steps (f(a) < f(a + 1)), and every such offset below hz is in it
pub open spec fn offsets_exact(s: Seq<Offset>, f: spec_fn(int) -> int, hz: int) -> bool {
    &&& off_str_inc(s)
    &&& forall |a: int| #[trigger] off_has(s, a) ==> a >= 0 && f(a) < f(a + 1)
    &&& forall |a: int| 0 <= a < hz && f(a) < f(a + 1) ==> #[trigger] off_has(s, a)
}

/// all offsets are below ub
pub open spec fn off_lt(s: Seq<Offset>, ub: int) -> bool { forall |i: int| 0 <= i < s.len() ==> (#[trigger] s[i]).val < ub }
/// tw is what `take_while(|A| *A < max)` keeps of offs
pub open spec fn tw_of(tw: Seq<Offset>, offs: Seq<Offset>, max: int) -> bool {
    &&& tw.len() <= offs.len() && tw == offs.take(tw.len() as int)
    &&& forall |i: int| 0 <= i < tw.len() ==> (#[trigger] offs[i]).val < max
    &&& tw.len() < offs.len() ==> !(offs[tw.len() as int].val < max)
}

pub trait RequestSteps: RequestBound {
    spec fn rsteps_ok(&self, n: int) -> bool;
    spec fn rsteps_hz(&self, n: int) -> int;
    spec fn rsteps_ub(&self, n: int) -> int;
    proof fn rsteps_hz_unbounded(&self, h: int) -> (n: int)
        requires self.wf()
        ensures n >= 0, self.rsteps_hz(n) >= h;
    proof fn rsteps_hz_mono(&self, n1: int, n2: int)
        requires self.wf(), 0 <= n1 <= n2
        ensures self.rsteps_hz(n1) <= self.rsteps_hz(n2);

//@item src/demand/mod.rs :: trait RequestBound / fn steps_iter
    fn steps_iter<'a>(&'a self/*+*/, vf_n: usize/*-*/) -> /*+*/(r: /*-*//*@R21: Box<dyn Iterator<Item = Duration> + 'a> @*/VfStream<Duration>/*@.*//*+*/)
        requires self.wf(), self.rsteps_ok(vf_n as int)
        ensures steps_exact(r.0@, rbf_fn(self), self.rsteps_hz(vf_n as int)),
                forall |i: int| 0 <= i < r.0@.len() ==> 1 <= (#[trigger] r.0@[i]).val <= self.rsteps_ub(vf_n as int)/*-*/;
//@end
}

pub proof fn lemma_steps_exact_transfer(s: Seq<Duration>, f: spec_fn(int) -> int, g: spec_fn(int) -> int, hz: int)
    requires steps_exact(s, f, hz), forall |d: int| d >= 1 ==> (f(d - 1) < f(d)) == (g(d - 1) < #[trigger] g(d))
    ensures steps_exact(s, g, hz)
{
    assert forall |d: int| #[trigger] has(s, d) implies d >= 1 && g(d - 1) < g(d) by { assert((f(d - 1) < f(d)) == (g(d - 1) < g(d))); }
    assert forall |d: int| 1 <= d <= hz && g(d - 1) < g(d) implies #[trigger] has(s, d) by { assert((f(d - 1) < f(d)) == (g(d - 1) < g(d))); }
}

/// every job has a positive cost (C11: "for request bounds this presupposes that every job has a positive cost")
pub open spec fn cost_strict<C: JobCostModel>(c: &C) -> bool { forall |a: int, b: int| #![trigger c.cost(a), c.cost(b)] 0 <= a < b ==> c.cost(a) < c.cost(b) }

pub proof fn lemma_scalar_strict(c: &Scalar)
    requires c.wcet.v() >= 1
    ensures cost_strict(c)
{
    assert forall |a: int, b: int| 0 <= a < b implies #[trigger] c.cost(a) < #[trigger] c.cost(b) by {
        lemma_mul_strict_inequality(a, b, c.wcet.v()); lemma_mul_is_commutative(c.wcet.v(), a); lemma_mul_is_commutative(c.wcet.v(), b);
    }
}

impl<B: ArrivalSteps, C: JobCostModel> RequestSteps for RBF<B, C> {
    open spec fn rsteps_ok(&self, n: int) -> bool { self.arrival_bound.steps_ok(n) && cost_strict(&self.wcet) }
    open spec fn rsteps_hz(&self, n: int) -> int { self.arrival_bound.steps_hz(n) }
    open spec fn rsteps_ub(&self, n: int) -> int { self.arrival_bound.steps_ub(n) }
    proof fn rsteps_hz_unbounded(&self, h: int) -> (n: int) { self.arrival_bound.steps_hz_unbounded(h) }
    proof fn rsteps_hz_mono(&self, n1: int, n2: int) { self.arrival_bound.steps_hz_mono(n1, n2); }
//@item src/demand/rbf.rs :: impl<B: ArrivalBound, C: JobCostModel> RequestBound for RBF<B, C> / fn steps_iter
    fn steps_iter<'a>(&'a self/*+*/, vf_n: usize/*-*/) -> /*+*/(r: /*-*//*@R21: Box<dyn Iterator<Item = Duration> + 'a> @*/VfStream<Duration>/*@.*//*+*/)/*-*/ {
        /*+*/let vf_r = /*-*/self.arrival_bound.steps_iter(/*+*/vf_n/*-*/)/*+*/;
        proof {
            // the request bound steps exactly where the arrival bound does
            self.wcet.cost_props(); self.arrival_bound.na_props();
            let f = nafn(&self.arrival_bound);
            let g = rbf_fn(self);
            assert forall |d: int| d >= 1 implies (f(d - 1) < f(d)) == (g(d - 1) < #[trigger] g(d)) by {
                let (n0, n1) = (self.arrival_bound.na(d - 1), self.arrival_bound.na(d));
                assert(0 <= n0 <= n1);
                if n0 < n1 { assert(self.wcet.cost(n0) < self.wcet.cost(n1)); } else { assert(n0 == n1); }
            }
            lemma_steps_exact_transfer(vf_r.0@, f, g, self.arrival_bound.steps_hz(vf_n as int));
            assert forall |i: int| 0 <= i < vf_r.0@.len() implies 1 <= (#[trigger] vf_r.0@[i]).val <= self.arrival_bound.steps_ub(vf_n as int) by { assert(has(vf_r.0@, vf_r.0@[i].v())); }
        }
        vf_r/*-*/
    }
//@end
}

//@item src/demand/mod.rs :: fn step_offsets
pub fn step_offsets/*+*/<RB: RequestSteps + ?Sized>/*-*/(rb: &'_ /*@R22: (impl RequestBound + ?Sized) @*/RB/*@.*//*+*/, vf_n: usize/*-*/) -> /*+*/(r: /*-*//*@R21: impl Iterator<Item = Offset> + '_ @*/VfStream<Offset>/*@.*//*+*/)
    requires rb.wf(), rb.rsteps_ok(vf_n as int)
    ensures offsets_exact(r.0@, rbf_fn(rb), rb.rsteps_hz(vf_n as int)),
            off_lt(r.0@, rb.rsteps_ub(vf_n as int))
/*-*/{
    /*@R21: rb.steps_iter() @*/let vf_st = rb.steps_iter(vf_n);
    let ghost st = vf_st.0@;
    let vf_r = vf_st/*@.*/.map(Offset::closed_from_time_zero/*+*/, Ghost(|delta: Duration| Offset { val: (delta.val - 1) as u64 })/*-*/)/*+*/;
    proof { lemma_steps_to_offsets(st, rbf_fn(rb), rb.rsteps_hz(vf_n as int), vf_r.0@); }
    vf_r/*-*/
}
//@end

// what #[auto_impl(&)] generates for references (R12)
impl<T: RequestBound + ?Sized> RequestBound for &T {
    open spec fn wf(&self) -> bool { (**self).wf() }
    open spec fn rbf(&self, delta: int) -> int { (**self).rbf(delta) }
    open spec fn lw(&self, delta: int) -> int { (**self).lw(delta) }
    open spec fn rbf_n(&self, delta: int, n: int) -> int { (**self).rbf_n(delta, n) }
    open spec fn rb_ok(&self, delta: int) -> bool { (**self).rb_ok(delta) }
    proof fn rbf_props(&self) { (**self).rbf_props(); }
    fn service_needed(&self, delta: Duration) -> (r: Service) { (**self).service_needed(delta) }
    fn service_needed_by_n_jobs(&self, delta: Duration, max_jobs: usize) -> (r: Service) { (**self).service_needed_by_n_jobs(delta, max_jobs) }
    fn least_wcet_in_interval(&self, delta: Duration) -> (r: Service) { (**self).least_wcet_in_interval(delta) }
}
impl<T: RequestSteps + ?Sized> RequestSteps for &T {
    open spec fn rsteps_ok(&self, n: int) -> bool { (**self).rsteps_ok(n) }
    open spec fn rsteps_hz(&self, n: int) -> int { (**self).rsteps_hz(n) }
    open spec fn rsteps_ub(&self, n: int) -> int { (**self).rsteps_ub(n) }
    proof fn rsteps_hz_unbounded(&self, h: int) -> (n: int) { (**self).rsteps_hz_unbounded(h) }
    proof fn rsteps_hz_mono(&self, n1: int, n2: int) { (**self).rsteps_hz_mono(n1, n2); }
    fn steps_iter<'a>(&'a self, vf_n: usize) -> (r: VfStream<Duration>) {
        let r = (**self).steps_iter(vf_n);
        proof { lemma_steps_exact_transfer(r.0@, rbf_fn(*self), rbf_fn(self), self.rsteps_hz(vf_n as int)); }
        r
    }
}

pub proof fn lemma_offsets_exact_transfer(s: Seq<Offset>, f: spec_fn(int) -> int, g: spec_fn(int) -> int, hz: int)
    requires offsets_exact(s, f, hz), forall |x: int| f(x) == #[trigger] g(x)
    ensures offsets_exact(s, g, hz)
{
    assert forall |a: int| #[trigger] off_has(s, a) implies a >= 0 && g(a) < g(a + 1) by { assert(f(a) == g(a) && f(a + 1) == g(a + 1)); }
    assert forall |a: int| 0 <= a < hz && g(a) < g(a + 1) implies #[trigger] off_has(s, a) by { assert(f(a) == g(a) && f(a + 1) == g(a + 1)); }
}


/// interval lengths -> offsets: mapping exact steps through closed_from_time_zero gives exact step offsets
pub proof fn lemma_steps_to_offsets(st: Seq<Duration>, f: spec_fn(int) -> int, hz: int, s: Seq<Offset>)
    requires steps_exact(st, f, hz), s.len() == st.len(), forall |i: int| 0 <= i < st.len() ==> (#[trigger] s[i]).val == st[i].val - 1
    ensures offsets_exact(s, f, hz)
{
    assert forall |i: int, k: int| #![trigger s[i], s[k]] 0 <= i < k < s.len() implies s[i].val < s[k].val by { assert(st[i].val < st[k].val); }
    assert forall |a: int| #[trigger] off_has(s, a) implies a >= 0 && f(a) < f(a + 1) by {
        let i = choose |i: int| 0 <= i < s.len() && (#[trigger] s[i]).val == a;
        assert(has(st, st[i].v()));
        assert(st[i].val == a + 1);
    }
    assert forall |a: int| 0 <= a < hz && f(a) < f(a + 1) implies #[trigger] off_has(s, a) by {
        assert(has(st, a + 1));
        let i = choose |i: int| 0 <= i < st.len() && (#[trigger] st[i]).val == a + 1;
        assert(s[i].val == a);
    }
}

/// The analyses' tail, for the FP family: the step offsets of f below `max`, each mapped to a result whose view is g, folded
/// "first error, else maximum, else zero" -- is the evaluator fold_steps(f, g, max).
#[verifier::spinoff_prover]
pub proof fn lemma_tail_fold(offs: Seq<Offset>, f: spec_fn(int) -> int, hz: int, max: int, tw: Seq<Offset>, rs: Seq<SearchResult>, g: spec_fn(int) -> Option<int>, res: SearchResult)
    requires
        offsets_exact(offs, f, hz), 0 <= max <= hz, tw_of(tw, offs, max),
        rs.len() == tw.len(), forall |i: int| 0 <= i < tw.len() ==> res_view(#[trigger] rs[i]) == g(tw[i].v()),
        mrt_ok(res, rs)
    ensures res_view(res) == fold_steps(f, g, max)
{
    // the taken offsets are exactly the step offsets below max
    assert forall |a: int| 0 <= a < max && is_step(f, a) implies off_has(tw, a) by {
        assert(off_has(offs, a));
        let i = choose |i: int| 0 <= i < offs.len() && (#[trigger] offs[i]).val == a;
        if i >= tw.len() {
            if tw.len() < i { assert(offs[tw.len() as int].val < offs[i].val); }
            assert(false);
        }
        assert(tw[i].val == a);
    }
    assert forall |i: int| 0 <= i < tw.len() implies 0 <= (#[trigger] tw[i]).val < max && is_step(f, tw[i].v()) by {
        assert(tw[i] == offs[i]);
        assert(off_has(offs, offs[i].v()));
    }
    lemma_fold_steps_char(f, g, max);
    let fs = fold_steps(f, g, max);
    if rs.len() == 0 {
        assert(fs == Some(0int)) by {
            if fs != Some(0int) {
                if fs.is_none() { let x = choose |x: int| 0 <= x < max && is_step(f, x) && g(x).is_none(); assert(off_has(tw, x)); }
                else { let x = choose |x: int| 0 <= x < max && is_step(f, x) && g(x) == fs; assert(off_has(tw, x)); }
            }
        }
    } else if has_err(rs) {
        let i = choose |i: int| 0 <= i < rs.len() && rs[i].is_err() && res == #[trigger] rs[i] && forall |k: int| 0 <= k < i ==> !(#[trigger] rs[k]).is_err();
        assert(g(tw[i].v()).is_none());
        assert(fs.is_none());
    } else {
        let i = choose |i: int| 0 <= i < rs.len() && res == #[trigger] rs[i];
        assert(fs.is_some()) by {
            if fs.is_none() {
                let x = choose |x: int| 0 <= x < max && is_step(f, x) && g(x).is_none();
                assert(off_has(tw, x));
                let k = choose |k: int| 0 <= k < tw.len() && (#[trigger] tw[k]).val == x;
                assert(res_view(rs[k]) == g(x));
                assert(rs[k].is_err());
            }
        }
        let m = fs.unwrap();
        let v = res.unwrap().v();
        assert(g(tw[i].v()) == Some(v));
        assert(v <= m);
        if m > v {
            assert(m != 0);
            let x = choose |x: int| 0 <= x < max && is_step(f, x) && g(x) == Some(m);
            assert(off_has(tw, x));
            let k = choose |k: int| 0 <= k < tw.len() && (#[trigger] tw[k]).val == x;
            assert(res_view(rs[k]) == g(x));
            assert(rs[k].unwrap().val <= res.unwrap().val);
        }
    }
}

/// fold_steps is None iff some step offset below a has no bound; otherwise it is the maximum of 0 and the bounds at the step offsets
#[verifier::spinoff_prover]
pub proof fn lemma_fold_steps_char(f: spec_fn(int) -> int, g: spec_fn(int) -> Option<int>, a: int)
    ensures
        fold_steps(f, g, a).is_none() <==> exists |x: int| 0 <= x < a && is_step(f, x) && (#[trigger] g(x)).is_none(),
        fold_steps(f, g, a).is_some() ==> {
            let m = fold_steps(f, g, a).unwrap();
            &&& m >= 0
            &&& forall |x: int| 0 <= x < a && is_step(f, x) ==> (#[trigger] g(x)).is_some() && g(x).unwrap() <= m
            &&& (m == 0 || exists |x: int| 0 <= x < a && is_step(f, x) && #[trigger] g(x) == Some(m))
        }
    decreases a
{
    if a > 0 {
        lemma_fold_steps_char(f, g, a - 1);
        let p = fold_steps(f, g, a - 1);
        let r = fold_steps(f, g, a);
        if is_step(f, a - 1) {
            assert(r == comb(p, g(a - 1)));
            if r.is_none() {
                if p.is_none() { let x = choose |x: int| 0 <= x < a - 1 && is_step(f, x) && (#[trigger] g(x)).is_none(); assert(0 <= x < a && is_step(f, x) && g(x).is_none()); }
                else { assert(g(a - 1).is_none()); }
            } else {
                let m = r.unwrap();
                assert(p.is_some() && g(a - 1).is_some());
                assert forall |x: int| 0 <= x < a && is_step(f, x) implies (#[trigger] g(x)).is_some() && g(x).unwrap() <= m by { if x < a - 1 { assert(g(x).unwrap() <= p.unwrap()); } }
                if m != 0 {
                    if g(a - 1).unwrap() > p.unwrap() { assert(g(a - 1) == Some(m)); }
                    else { assert(m == p.unwrap()); let x = choose |x: int| 0 <= x < a - 1 && is_step(f, x) && #[trigger] g(x) == Some(p.unwrap()); assert(0 <= x < a && is_step(f, x) && g(x) == Some(m)); }
                }
                if exists |x: int| 0 <= x < a && is_step(f, x) && (#[trigger] g(x)).is_none() {
                    let x = choose |x: int| 0 <= x < a && is_step(f, x) && (#[trigger] g(x)).is_none();
                    if x < a - 1 { assert(p.is_none()); }
                }
            }
        } else {
            assert(r == p);
            if r.is_none() { let x = choose |x: int| 0 <= x < a - 1 && is_step(f, x) && (#[trigger] g(x)).is_none(); assert(0 <= x < a && is_step(f, x) && g(x).is_none()); }
            else {
                let m = r.unwrap();
                if m != 0 { let x = choose |x: int| 0 <= x < a - 1 && is_step(f, x) && #[trigger] g(x) == Some(m); assert(0 <= x < a && is_step(f, x) && g(x) == Some(m)); }
                if exists |x: int| 0 <= x < a && is_step(f, x) && (#[trigger] g(x)).is_none() {
                    let x = choose |x: int| 0 <= x < a && is_step(f, x) && (#[trigger] g(x)).is_none();
                    assert(x < a - 1);
                }
            }
        }
    }
}

} // verus!
