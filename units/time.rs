// unit part: src/time.rs -- every hand-written function of the time wrappers is extracted;
// the derive output is shimmed in vx/prelude.rs (R12).
verus! {

pub type Time = u64;

//@item src/time.rs :: struct Offset
/*+*/#[derive(Debug)] /*-*/pub struct Offset {
    /*+*/pub /*-*/val: Time,
}
//@end
//@item src/time.rs :: struct Duration
/*+*/#[derive(Debug)] /*-*/pub struct Duration {
    /*+*/pub /*-*/val: Time,
}
//@end
//@item src/time.rs :: struct Service
/*+*/#[derive(Debug)] /*-*/pub struct Service {
    /*+*/pub /*-*/val: Time,
}
//@end

ord_shim!(Offset);
ord_shim!(Duration);
ord_shim!(Service);
arith_shim!(Duration);
arith_shim!(Service);

// Ord::min / Ord::max (provided methods of the derived Ord), R12
impl Service {
    pub fn min(self, o: Service) -> (r: Service) ensures r.val == (if self.val <= o.val { self.val } else { o.val }) { if self.val <= o.val { self } else { o } }
    pub fn max(self, o: Service) -> (r: Service) ensures r.val == (if self.val >= o.val { self.val } else { o.val }) { if self.val >= o.val { self } else { o } }
}
impl Duration {
    pub fn min(self, o: Duration) -> (r: Duration) ensures r.val == (if self.val <= o.val { self.val } else { o.val }) { if self.val <= o.val { self } else { o } }
    pub fn max(self, o: Duration) -> (r: Duration) ensures r.val == (if self.val >= o.val { self.val } else { o.val }) { if self.val >= o.val { self } else { o } }
}
impl Offset {
    pub fn min(self, o: Offset) -> (r: Offset) ensures r.val == (if self.val <= o.val { self.val } else { o.val }) { if self.val <= o.val { self } else { o } }
    pub fn max(self, o: Offset) -> (r: Offset) ensures r.val == (if self.val >= o.val { self.val } else { o.val }) { if self.val >= o.val { self } else { o } }
}

impl Offset {
//@item src/time.rs :: impl Offset / fn from_time_zero
    pub const fn from_time_zero(delta: Duration) -> /*+*/(r: /*-*/Offset/*+*/) ensures r.val == delta.val/*-*/ {
        Offset { val: delta.val }
    }
//@end
//@item src/time.rs :: impl Offset / fn closed_from_time_zero
    pub const fn closed_from_time_zero(delta: Duration) -> /*+*/(r: /*-*/Offset/*+*/)
        requires delta.val >= 1     // C11/C20: a step of length 0 has no closed-interval offset
        ensures r.val == delta.val - 1/*-*/ {
        Offset { val: delta.val - 1 }
    }
//@end
//@item src/time.rs :: impl Offset / fn since_time_zero
    pub const fn since_time_zero(self) -> /*+*/(r: /*-*/Duration/*+*/) ensures r.val == self.val/*-*/ {
        Duration { val: self.val }
    }
//@end
//@item src/time.rs :: impl Offset / fn closed_since_time_zero
    pub const fn closed_since_time_zero(self) -> /*+*/(r: /*-*/Duration/*+*/)
        requires self.val < u64::MAX
        ensures r.val == self.val + 1/*-*/ {
        Duration { val: self.val + 1 }
    }
//@end
//@item src/time.rs :: impl Offset / fn distance_to
    pub fn distance_to(self, t: Offset) -> /*+*/(r: /*-*/Duration/*+*/)
        requires self.val <= t.val
        ensures r.val == t.val - self.val/*-*/ {
        /*@R7: debug_assert!(self.val <= t.val); @*/vf_assert(self.val <= t.val);/*@.*/
        Duration::from(t.val - self.val)
    }
//@end
}

impl AddSpecImpl<Duration> for Offset {
    open spec fn obeys_add_spec() -> bool { true }
    open spec fn add_req(self, rhs: Duration) -> bool { self.val + rhs.val <= u64::MAX }
    open spec fn add_spec(self, rhs: Duration) -> Offset { Offset { val: (self.val + rhs.val) as u64 } }
}
impl std::ops::Add<Duration> for Offset {
    type Output = Offset;
//@item src/time.rs :: impl std::ops::Add<Duration> for Offset / fn add
    fn add(self, delta: Duration) -> Offset {
        Offset {
            val: self.val + delta.val,
        }
    }
//@end
}

impl Duration {
//@item src/time.rs :: impl Duration / fn is_non_zero
    pub const fn is_non_zero(self) -> /*+*/(r: /*-*/bool/*+*/) ensures r == (self.val > 0)/*-*/ {
        self.val > 0
    }
//@end
//@item src/time.rs :: impl Duration / fn is_zero
    pub const fn is_zero(self) -> /*+*/(r: /*-*/bool/*+*/) ensures r == (self.val == 0)/*-*/ {
        self.val == 0
    }
//@end
//@item src/time.rs :: impl Duration / fn zero
    pub const fn zero() -> /*+*/(r: /*-*/Duration/*+*/) ensures r.val == 0/*-*/ {
        Duration { val: 0 }
    }
//@end
//@item src/time.rs :: impl Duration / fn epsilon
    pub const fn epsilon() -> /*+*/(r: /*-*/Duration/*+*/) ensures r.val == 1/*-*/ {
        Duration { val: 1 }
    }
//@end
//@item src/time.rs :: impl Duration / fn saturating_sub
    pub const fn saturating_sub(&self, rhs: Duration) -> /*+*/(r: /*-*/Duration/*+*/)
        ensures r.val == (if self.val >= rhs.val { self.val - rhs.val } else { 0 })/*-*/ {
        Duration {
            val: self.val.saturating_sub(rhs.val),
        }
    }
//@end
}

impl FromSpecImpl<Service> for Duration {
    open spec fn obeys_from_spec() -> bool { true }
    open spec fn from_spec(s: Service) -> Duration { Duration { val: s.val } }
}
impl From<Service> for Duration {
//@item src/time.rs :: impl From<Service> for Duration / fn from
    fn from(s: Service) -> Duration {
        Duration::from(s.val)
    }
//@end
}

impl MulSpecImpl<u64> for Duration {
    open spec fn obeys_mul_spec() -> bool { true }
    open spec fn mul_req(self, rhs: u64) -> bool { self.val * rhs <= u64::MAX }
    open spec fn mul_spec(self, rhs: u64) -> Duration { Duration { val: (self.val * rhs) as u64 } }
}
impl std::ops::Mul<u64> for Duration {
    type Output = Duration;
//@item src/time.rs :: impl std::ops::Mul<u64> for Duration / fn mul
    fn mul(self, factor: u64) -> Duration {
        Duration::from(self.val * factor)
    }
//@end
}

impl DivSpecImpl<Duration> for Duration {
    open spec fn obeys_div_spec() -> bool { true }
    open spec fn div_req(self, rhs: Duration) -> bool { rhs.val != 0 }
    open spec fn div_spec(self, rhs: Duration) -> u64 { self.val / rhs.val }
}
impl std::ops::Div<Duration> for Duration {
    type Output = u64;
//@item src/time.rs :: impl std::ops::Div<Duration> for Duration / fn div
    fn div(self, divisor: Duration) -> u64 {
        self.val / divisor.val
    }
//@end
}

impl RemSpecImpl<Duration> for Duration {
    open spec fn obeys_rem_spec() -> bool { true }
    open spec fn rem_req(self, rhs: Duration) -> bool { rhs.val != 0 }
    open spec fn rem_spec(self, rhs: Duration) -> Duration { Duration { val: self.val % rhs.val } }
}
impl std::ops::Rem<Duration> for Duration {
    type Output = Duration;
//@item src/time.rs :: impl std::ops::Rem<Duration> for Duration / fn rem
    fn rem(self, divisor: Duration) -> Duration {
        Duration::from(self.val % divisor.val)
    }
//@end
}

impl Service {
//@item src/time.rs :: impl Service / fn none
    pub fn none() -> /*+*/(r: /*-*/Service/*+*/) ensures r.val == 0/*-*/ {
        Service::from(0)
    }
//@end
//@item src/time.rs :: impl Service / fn is_none
    pub fn is_none(self) -> /*+*/(r: /*-*/bool/*+*/) ensures r == (self.val == 0)/*-*/ {
        self.val == 0
    }
//@end
//@item src/time.rs :: impl Service / fn in_interval
    pub const fn in_interval(d: Duration) -> /*+*/(r: /*-*/Service/*+*/) ensures r.val == d.val/*-*/ {
        Service { val: d.val }
    }
//@end
//@item src/time.rs :: impl Service / fn epsilon
    pub const fn epsilon() -> /*+*/(r: /*-*/Service/*+*/) ensures r.val == 1/*-*/ {
        Service { val: 1 }
    }
//@end
//@item src/time.rs :: impl Service / fn saturating_sub
    pub const fn saturating_sub(&self, rhs: Service) -> /*+*/(r: /*-*/Service/*+*/)
        ensures r.val == (if self.val >= rhs.val { self.val - rhs.val } else { 0 })/*-*/ {
        Service {
            val: self.val.saturating_sub(rhs.val),
        }
    }
//@end
}

impl FromSpecImpl<Duration> for Service {
    open spec fn obeys_from_spec() -> bool { true }
    open spec fn from_spec(d: Duration) -> Service { Service { val: d.val } }
}
impl From<Duration> for Service {
//@item src/time.rs :: impl From<Duration> for Service / fn from
    fn from(d: Duration) -> Service {
        Service::in_interval(d)
    }
//@end
}

impl MulSpecImpl<u64> for Service {
    open spec fn obeys_mul_spec() -> bool { true }
    open spec fn mul_req(self, rhs: u64) -> bool { self.val * rhs <= u64::MAX }
    open spec fn mul_spec(self, rhs: u64) -> Service { Service { val: (self.val * rhs) as u64 } }
}
impl std::ops::Mul<u64> for Service {
    type Output = Service;
//@item src/time.rs :: impl std::ops::Mul<u64> for Service / fn mul
    fn mul(self, factor: u64) -> Service {
        Service::from(self.val * factor)
    }
//@end
}

} // verus!
