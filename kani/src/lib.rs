//! Engine K: Kani harnesses on the UNMODIFIED crate (path dependency on /repo).
//! (a) complete proofs: loop-free, full-width symbolic inputs (derive shims).
//! (b) bounded stand-ins with stated bounds: iterator code that Verus cannot ingest.
#![allow(unused_imports, dead_code)]
#[cfg(kani)]
mod shims;
#[cfg(kani)]
mod steps;
#[cfg(kani)]
mod models;
#[cfg(kani)]
mod tails;
