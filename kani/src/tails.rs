//! C06 (bounded): the iterator tails of the analyses, checked on the REAL functions with table-based
//! request-bound functions (symbolic monotone tables, no division) against a naive all-offsets evaluator.
use response_time_analysis::demand::RequestBound;
use response_time_analysis::time::{Duration, Service};
use response_time_analysis::{fifo, fixed_priority};

const H: usize = 6;

/// rbf(delta) = tab[min(delta, H)] ; tab[0] = 0, non-decreasing
#[derive(Clone)]
pub struct Tab { pub tab: [u8; H + 1] }
impl Tab {
    pub fn any() -> Tab {
        let tab: [u8; H + 1] = kani::any();
        kani::assume(tab[0] == 0);
        let mut i = 1;
        while i <= H { kani::assume(tab[i - 1] <= tab[i] && tab[i] <= 6); i += 1; }
        Tab { tab }
    }
    pub fn at(&self, delta: u64) -> u64 { self.tab[(delta as usize).min(H)] as u64 }
}
impl RequestBound for Tab {
    fn service_needed(&self, delta: Duration) -> Service { Service::from(self.at(u64::from(delta))) }
    fn least_wcet_in_interval(&self, _delta: Duration) -> Service { Service::from(1) }
    fn steps_iter<'a>(&'a self) -> Box<dyn Iterator<Item = Duration> + 'a> {
        Box::new((1..=H as u64).filter(move |x| self.at(*x - 1) < self.at(*x)).map(Duration::from))
    }
    fn job_cost_iter<'a>(&'a self, _delta: Duration) -> Box<dyn Iterator<Item = Service> + 'a> { Box::new(std::iter::empty()) }
}

fn scan(limit: u64, w: impl Fn(u64) -> u64) -> Option<u64> {
    let mut r = 0u64;
    while r <= limit {
        if r >= w(r.max(1)) { return Some(r); }
        r += 1;
    }
    None
}

/// fully-preemptive FP, one interfering task, limit <= 8: real function == exhaustive evaluation over EVERY offset
#[kani::proof]
#[kani::unwind(10)]
fn tail_fp_fully_preemptive() {
    let tua = Tab::any();
    let hp = Tab::any();
    let limit: u64 = kani::any();
    kani::assume(limit >= 1 && limit <= 8);
    kani::assume(tua.tab[1] >= 1);
    let res = fixed_priority::fully_preemptive::dedicated_uniproc_rta(&tua, &[hp.clone()], Duration::from(limit));
    // naive evaluator
    let l = scan(limit, |x| hp.at(x) + tua.at(x));
    let expected = match l {
        None => None,
        Some(l) => {
            let mut best = Some(0u64);
            let mut a = 0;
            while a < l {
                match scan(limit, |x| tua.at(a + 1) + hp.at(x)) {
                    None => { best = None; }
                    Some(af) => { if let Some(b) = best { best = Some(b.max(af - a)); } }
                }
                a += 1;
            }
            best
        }
    };
    kani::cover!(expected == Some(3));
    match (res, expected) {
        (Ok(r), Some(e)) => assert!(u64::from(r) == e, "bound differs from the exhaustive evaluation"),
        (Err(_), None) => {}
        _ => assert!(false, "Ok/Err differs from the exhaustive evaluation"),
    }
}

/// FIFO: real function == max over EVERY offset A < L of rbf(A+1) - A
#[kani::proof]
#[kani::unwind(10)]
fn tail_fifo() {
    let rb = Tab::any();
    let limit: u64 = kani::any();
    kani::assume(limit >= 1 && limit <= 8);
    kani::assume(rb.tab[1] >= 1);
    let res = fifo::dedicated_uniproc_rta(&rb, Duration::from(limit));
    let expected = match scan(limit, |x| rb.at(x)) {
        None => None,
        Some(l) => { let mut best = 0u64; let mut a = 0; while a < l { best = best.max(rb.at(a + 1) - a); a += 1; } Some(best) }
    };
    kani::cover!(expected == Some(2));
    match (res, expected) {
        (Ok(r), Some(e)) => assert!(u64::from(r) == e, "bound differs from the exhaustive evaluation"),
        (Err(_), None) => {}
        _ => assert!(false, "Ok/Err differs from the exhaustive evaluation"),
    }
}
