//! Complete (loop-free, full 64-bit domain) checks that the hand-written shims of vx/prelude.rs
//! describe what derive / derive_more generate for the time wrappers (rule R12).
use response_time_analysis::time::{Duration, Offset, Service};

#[kani::proof]
fn shim_duration_add_sub() {
    let a: u64 = kani::any();
    let b: u64 = kani::any();
    if let Some(s) = a.checked_add(b) {
        assert!(Duration::from(a) + Duration::from(b) == Duration::from(s));
        let mut x = Duration::from(a);
        x += Duration::from(b);
        assert!(x == Duration::from(s));
    }
    if a >= b {
        assert!(Duration::from(a) - Duration::from(b) == Duration::from(a - b));
    }
    assert!(u64::from(Duration::from(a)) == a);
    assert!((Duration::from(a) < Duration::from(b)) == (a < b));
    assert!((Duration::from(a) <= Duration::from(b)) == (a <= b));
    assert!((Duration::from(a) == Duration::from(b)) == (a == b));
    assert!(Duration::from(a).max(Duration::from(b)) == Duration::from(a.max(b)));
    assert!(Duration::from(a).min(Duration::from(b)) == Duration::from(a.min(b)));
    assert!(Duration::from(a).cmp(&Duration::from(b)) == a.cmp(&b));
    kani::cover!(a > b && b > 0);
}

#[kani::proof]
fn shim_service_add_sub() {
    let a: u64 = kani::any();
    let b: u64 = kani::any();
    if let Some(s) = a.checked_add(b) {
        assert!(Service::from(a) + Service::from(b) == Service::from(s));
        let mut x = Service::from(a);
        x += Service::from(b);
        assert!(x == Service::from(s));
    }
    if a >= b {
        assert!(Service::from(a) - Service::from(b) == Service::from(a - b));
    }
    assert!(u64::from(Service::from(a)) == a);
    assert!((Service::from(a) < Service::from(b)) == (a < b));
    assert!((Service::from(a) == Service::from(b)) == (a == b));
    assert!(Service::from(a).max(Service::from(b)) == Service::from(a.max(b)));
    assert!(Service::from(a).min(Service::from(b)) == Service::from(a.min(b)));
    assert!(Duration::from(Service::from(a)) == Duration::from(a));
    assert!(Service::from(Duration::from(a)) == Service::from(a));
    kani::cover!(a > b && b > 0);
}

#[kani::proof]
fn shim_offset_ord() {
    let a: u64 = kani::any();
    let b: u64 = kani::any();
    assert!(u64::from(Offset::from(a)) == a);
    assert!((Offset::from(a) < Offset::from(b)) == (a < b));
    assert!((Offset::from(a) <= Offset::from(b)) == (a <= b));
    assert!((Offset::from(a) == Offset::from(b)) == (a == b));
    assert!(Offset::from(a).max(Offset::from(b)) == Offset::from(a.max(b)));
    if let Some(s) = a.checked_add(b) {
        assert!(Offset::from(a) + Duration::from(b) == Offset::from(s));
    }
    kani::cover!(a > b);
}

/// overflow of the derived `+` panics (it is not wrapping): the shim's add_req is the exact precondition
#[kani::proof]
#[kani::should_panic]
fn shim_duration_add_overflow_panics() {
    let a: u64 = kani::any();
    let b: u64 = kani::any();
    kani::assume(a.checked_add(b).is_none());
    let _ = Duration::from(a) + Duration::from(b);
}
