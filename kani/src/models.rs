//! C14 / C16 / C12 bounded stand-ins for iterator-based code of the cost / demand / delta-min modules.
use response_time_analysis::arrival::{self, ArrivalBound, Curve, Periodic, Sporadic};
use response_time_analysis::demand::{RequestBound, RBF};
use response_time_analysis::time::{Duration, Service};
use response_time_analysis::wcet::{self, JobCostModel, Multiframe, Scalar};

fn d(x: u64) -> Duration { Duration::from(x) }
fn s(x: u64) -> Service { Service::from(x) }
fn us(x: Service) -> u64 { u64::from(x) }

/// KF2 (fixed): wcet::Curve::from_trace must bound every run of n <= max_n consecutive jobs (3 jobs, max_n = 2)
#[kani::proof]
#[kani::unwind(5)]
fn wcet_from_trace_3() {
    let c: [u8; 3] = kani::any();
    let trace = [s(c[0] as u64), s(c[1] as u64), s(c[2] as u64)];
    let curve = wcet::Curve::from_trace(trace.iter().copied(), 2);
    kani::cover!(c[2] > c[0] && c[2] > c[1]);
    // every single job
    let c1 = us(curve.cost_of_jobs(1));
    assert!(c1 >= c[0] as u64 && c1 >= c[1] as u64 && c1 >= c[2] as u64, "a single job exceeds cost_of_jobs(1)");
    // every run of two
    let c2 = us(curve.cost_of_jobs(2));
    assert!(c2 >= c[0] as u64 + c[1] as u64 && c2 >= c[1] as u64 + c[2] as u64, "a run of two jobs exceeds cost_of_jobs(2)");
}

/// Multiframe: default cost_of_jobs (take/sum over a cycle) and least_wcet
#[kani::proof]
#[kani::unwind(8)]
fn multiframe_costs() {
    let f: [u8; 3] = kani::any();
    let m = Multiframe::new(vec![s(f[0] as u64), s(f[1] as u64), s(f[2] as u64)]);
    let n: usize = kani::any();
    kani::assume(n <= 5);
    kani::cover!(n == 4);
    assert!(us(m.cost_of_jobs(0)) == 0);
    // cost_of_jobs(n) == sum of the first n items of the cycle, non-decreasing
    let mut sum = 0u64;
    let mut i = 0;
    while i < n { sum += f[i % 3] as u64; i += 1; }
    assert!(us(m.cost_of_jobs(n)) == sum, "cost_of_jobs != sum of the first n job costs");
    assert!(us(m.cost_of_jobs(n + 1)) >= sum, "cost_of_jobs decreasing");
    // least_wcet(n) <= every one of the first n items
    let lw = us(m.least_wcet(n));
    let mut i = 0;
    while i < n { assert!(lw <= f[i % 3] as u64, "least_wcet above a job cost"); i += 1; }
}

/// C16: service_needed_by_n_jobs (sorted/rev/take/sum) on RBF<Periodic, Multiframe>
#[kani::proof]
#[kani::unwind(8)]
fn rbf_by_n_jobs() {
    let f: [u8; 2] = kani::any();
    let rbf = RBF::new(Periodic::new(d(2)), Multiframe::new(vec![s(f[0] as u64), s(f[1] as u64)]));
    let delta: u64 = kani::any();
    kani::assume(delta <= 6);
    let n: usize = kani::any();
    kani::assume(n <= 4);
    kani::cover!(delta == 5 && n == 2);
    let total = us(rbf.service_needed(d(delta)));
    let jobs = rbf.arrival_bound.number_arrivals(d(delta));
    let by_n = us(rbf.service_needed_by_n_jobs(d(delta), n));
    assert!(by_n <= total, "restricted demand exceeds service_needed");
    assert!(us(rbf.service_needed_by_n_jobs(d(delta), n + 1)) >= by_n, "not monotone in n");
    if n >= jobs { assert!(by_n == total, "not equal once n reaches the number of jobs"); }
    // sum of the n largest of the first `jobs` cyclic costs (2 distinct values)
    let hi = f[0].max(f[1]) as u64; let lo = f[0].min(f[1]) as u64;
    let n_hi = if f[0] >= f[1] { (jobs + 1) / 2 } else { jobs / 2 };
    let n_lo = jobs - n_hi;
    let take_hi = n.min(n_hi); let take_lo = (n - take_hi).min(n_lo);
    assert!(by_n == take_hi as u64 * hi + take_lo as u64 * lo, "not the sum of the n largest job costs");
    // job_cost_iter sums to service_needed
    let mut sum = 0u64;
    for c in rbf.job_cost_iter(d(delta)) { sum += us(c); }
    assert!(sum == total, "job_cost_iter does not sum to service_needed");
}

/// C12: delta_min_iter is the dual of number_arrivals (first non-trivial item), Sporadic
#[kani::proof]
#[kani::unwind(8)]
fn dmin_dual_sporadic() {
    let t: u64 = kani::any();
    let j: u64 = kani::any();
    kani::assume(t >= 1 && t <= 4 && j <= 5);
    let sp = Sporadic::new(d(t), d(j));
    kani::cover!(t == 2 && j == 3);
    let mut it = arrival::nonzero_delta_min_iter(&sp);
    if let Some((n, x)) = it.next() {
        let x = u64::from(x);
        assert!(n == 2);
        assert!(sp.number_arrivals(d(x + 1)) >= n, "n events do not fit into a window of length x+1");
        assert!(sp.number_arrivals(d(x)) < n, "n events already fit into a window of length x");
    } else {
        assert!(false, "delta_min_iter empty for a sporadic task");
    }
}
