//! C11 (bounded): prefixes of `steps_iter` on the real boxed iterators.
//! For the first N yielded values s_1..s_N:
//!   s_1 >= 1 (never 0); strictly increasing; na(s_i - 1) < na(s_i) (a real increase);
//!   na(s_1 - 1) == 0 ... precisely: na(s_{i+1} - 1) == na(s_i) (with monotonicity of na, proved in C10: no step was skipped);
//!   s_1 == 1 iff na(1) > 0.
use response_time_analysis::arrival::{self, ArrivalBound, Curve, ExtrapolatingCurve, Never, Periodic, Propagated, Sporadic, ArrivalCurvePrefix};
use response_time_analysis::time::Duration;

fn d(x: u64) -> Duration { Duration::from(x) }
fn u(x: Duration) -> u64 { u64::from(x) }

pub fn check_steps_prefix<A: ArrivalBound + ?Sized>(ab: &A, n: usize) {
    let mut it = ab.steps_iter();
    let mut prev: Option<u64> = None;
    let mut i = 0;
    while i < n {
        match it.next() {
            None => {
                // nothing more: (bounded) nothing may arrive right after the last step within a small horizon
                match prev {
                    None => { assert!(ab.number_arrivals(d(1)) == 0, "steps_iter empty although something arrives"); }
                    Some(_) => {}
                }
                return;
            }
            Some(s) => {
                let s = u(s);
                assert!(s >= 1, "steps_iter yields 0");
                assert!(ab.number_arrivals(d(s - 1)) < ab.number_arrivals(d(s)), "yielded value is not an increase");
                match prev {
                    None => {
                        // first step: nothing before it
                        assert!(ab.number_arrivals(d(s - 1)) == 0, "an increase before the first yielded step was skipped");
                    }
                    Some(p) => {
                        assert!(p < s, "not strictly increasing");
                        assert!(ab.number_arrivals(d(s - 1)) == ab.number_arrivals(d(p)), "an increase between two yielded steps was skipped");
                    }
                }
                prev = Some(s);
            }
        }
        i += 1;
    }
}

#[kani::proof]
#[kani::unwind(6)]
fn steps_periodic() {
    let t: u64 = kani::any();
    kani::assume(t >= 1 && t <= 15);
    let p = Periodic::new(d(t));
    kani::cover!(t == 3);
    check_steps_prefix(&p, 4);
}

#[kani::proof]
#[kani::unwind(20)]
fn steps_sporadic() {
    let t: u64 = kani::any();
    let j: u64 = kani::any();
    kani::assume(t >= 1 && t <= 7 && j <= 15);
    let s = Sporadic::new(d(t), d(j));
    kani::cover!(t == 2 && j == 5);
    check_steps_prefix(&s, 3);
}

#[kani::proof]
#[kani::unwind(4)]
fn steps_never() {
    kani::cover!(true);
    check_steps_prefix(&Never {}, 3);
}

/// KF3 witness: Propagated<Never> yields a step although nothing arrives
#[kani::proof]
#[kani::unwind(4)]
fn steps_propagated_never() {
    let j: u64 = kani::any();
    kani::assume(j <= 3);
    let p = Propagated::with_jitter(&Never {}, d(j));
    kani::cover!(true);
    check_steps_prefix(&p, 2);
}

#[kani::proof]
#[kani::unwind(8)]
fn steps_propagated_sporadic() {
    let t: u64 = kani::any();
    let j: u64 = kani::any();
    let r: u64 = kani::any();
    kani::assume(t >= 1 && t <= 4 && j <= 4 && r <= 4);
    let p = Propagated::with_jitter(&Sporadic::new(d(t), d(j)), d(r));
    kani::cover!(t == 3 && r == 2);
    check_steps_prefix(&p, 3);
}

/// KF1 witness: the first item of ArrivalCurvePrefix::steps_iter is 0
#[kani::proof]
#[kani::unwind(6)]
fn steps_arrival_curve_prefix() {
    let h: u64 = kani::any();
    let s2: u64 = kani::any();
    kani::assume(h >= 2 && h <= 6 && s2 >= 2 && s2 <= h);
    let acp = ArrivalCurvePrefix::new(d(h), vec![(d(1), 1), (d(s2), 2)]);
    kani::cover!(true);
    check_steps_prefix(&acp, 3);
}

/// Curve with a symbolic two-entry delta-min prefix (KF5 witness: plateau [x, x])
#[kani::proof]
#[kani::unwind(6)]
fn steps_curve2() {
    let a: u64 = kani::any();
    let b: u64 = kani::any();
    kani::assume(a >= 1 && a <= b && b <= 6);
    let c = Curve::new(vec![d(a), d(b)]);
    kani::cover!(a < b);
    check_steps_prefix(&c, 3);
}

/// the same without plateau (strictly increasing prefix): expected to pass
#[kani::proof]
#[kani::unwind(6)]
fn steps_curve2_strict() {
    let a: u64 = kani::any();
    let b: u64 = kani::any();
    kani::assume(a >= 1 && a < b && b <= 6);
    let c = Curve::new(vec![d(a), d(b)]);
    kani::cover!(a + 1 < b);
    check_steps_prefix(&c, 3);
}

/// everything except the leading 0 of ArrivalCurvePrefix::steps_iter (KF1): passes on the unchanged tree
#[kani::proof]
#[kani::unwind(6)]
fn steps_arrival_curve_prefix_rest() {
    let h: u64 = kani::any();
    let s2: u64 = kani::any();
    kani::assume(h >= 2 && h <= 6 && s2 >= 2 && s2 <= h);
    let acp = ArrivalCurvePrefix::new(d(h), vec![(d(1), 1), (d(s2), 2)]);
    let mut it = acp.steps_iter();
    let first = it.next();
    kani::cover!(first == Some(d(0)));
    // after an (optional) leading zero the remaining items must be a correct step sequence
    let mut prev: Option<u64> = None;
    let mut i = 0;
    let mut pending = if first == Some(d(0)) { it.next() } else { first };
    while i < 3 {
        let s = u(pending.unwrap());
        assert!(s >= 1);
        assert!(acp.number_arrivals(d(s - 1)) < acp.number_arrivals(d(s)), "yielded value is not an increase");
        match prev {
            None => assert!(acp.number_arrivals(d(s - 1)) == 0, "skipped before first"),
            Some(p) => { assert!(p < s, "not strictly increasing"); assert!(acp.number_arrivals(d(s - 1)) == acp.number_arrivals(d(p)), "skipped between"); }
        }
        prev = Some(s);
        pending = it.next();
        i += 1;
    }
}


/// a user-defined arrival model in which nothing arrives in very short intervals (floor instead of ceil)
pub struct FloorPeriodic { pub period: u64 }
impl ArrivalBound for FloorPeriodic {
    fn number_arrivals(&self, delta: Duration) -> usize { (u(delta) / self.period) as usize }
    fn steps_iter<'a>(&'a self) -> Box<dyn Iterator<Item = Duration> + 'a> { Box::new((1..).map(move |k: u64| d(k * self.period))) }
    fn clone_with_jitter(&self, jitter: Duration) -> Box<dyn ArrivalBound> { Box::new(Propagated::with_jitter(&FloorPeriodic { period: self.period }, jitter)) }
}
impl Clone for FloorPeriodic { fn clone(&self) -> Self { FloorPeriodic { period: self.period } } }

/// Propagated over an input with number_arrivals(1) == 0: the step at 1 exists iff the jitter reaches the first input step
#[kani::proof]
#[kani::unwind(8)]
fn steps_propagated_floor() {
    let t: u64 = kani::any();
    let r: u64 = kani::any();
    kani::assume(t >= 2 && t <= 5 && r <= 6);
    let p = Propagated::with_jitter(&FloorPeriodic { period: t }, d(r));
    kani::cover!(r + 1 >= t);
    kani::cover!(r + 1 < t);
    check_steps_prefix(&p, 2);
}
